"""C19 (a) -- converter expression trees: builders, instrumented callbacks, observers, generators.

Case (Lean `Attrs.C19.Conv.Case`): tree, mode, inputs, inst, field, flds   + harness-only `cfg`.
Tree JSON: {"fn":{name,beh}} | {"conv":{name,beh,ts,tf}} | {"pipe":{"cs":[..]}} | {"optional":{"c":..}} |
           {"dinV":{"d":VAL}} | {"dinF":{"g":name,"beh":beh}};  VAL = "none" | {"v":{"s":text}}.
"""
from __future__ import annotations

import itertools
import json
import sys
import types

import attr
import attrs
from attr import converters as cv

import common

LOG: list = []
CUR = {"cls": None, "insts": [], "exc": "UserError"}
REG: dict = {}        # id -> object for every token / term / factory result / default created in this case
TOKS: dict = {}       # token name -> the one Tok object of this case (a repeated input is the identical object)
FNS: dict = {}        # (name, beh) -> the one instrumented function of this case (shared between leaves)
RAISED: list = []     # exception objects raised by instrumented callbacks


class UKey(KeyError):
    pass


class UStop(StopIteration):
    pass


class UType(TypeError):
    pass


class UAttr(AttributeError):
    pass


class UValue(ValueError):
    pass


class UBase(BaseException):
    pass


EXC_CLASSES = {"UserError": common.UserError, "KeyError": UKey, "StopIteration": UStop, "TypeError": UType,
               "AttributeError": UAttr, "ValueError": UValue, "BaseException": UBase}


class OddCallable:
    """a perfectly valid callable that happens to be falsy, like an empty callable registry / pool or a configured
    Mock: every callable role of the API must treat it like a function"""

    def __init__(self, f):
        self._f = f
        self.__name__ = getattr(f, "__name__", "odd")

    def __call__(self, *args, **kw):
        return self._f(*args, **kw)


class OddBool(OddCallable):
    def __bool__(self):
        return False


class OddLen(OddCallable):
    def __len__(self):
        return 0


def odd(f, style):
    """wrap according to the case's callable style: function (as it is) | falsy (__bool__ False) | len0 (__len__ 0)"""
    if style == "falsy":
        return OddBool(f)
    if style == "len0":
        return OddLen(f)
    return f


def _raise(name):
    e = EXC_CLASSES[CUR["exc"]](name)
    e.c19_name = name
    RAISED.append(e)
    raise e


def _reg(o):
    REG[id(o)] = o
    return o


def _known(o):
    return REG.get(id(o)) is o


class Tok:
    """opaque truthy token"""
    __slots__ = ("name",)

    def __init__(self, name):
        self.name = name


class EqTok(Tok):
    """a token that CLAIMS to be equal to everything, None included (like unittest.mock.ANY / a matcher / a proxy):
    it is not None, so only an identity test may decide what default_if_none / optional do with it"""
    __slots__ = ()

    def __eq__(self, other):
        return True

    def __ne__(self, other):
        return False

    __hash__ = object.__hash__


class NullishInt(int):
    """a falsy int subclass whose == / != say it equals None"""

    def __eq__(self, other):
        return other is None or int.__eq__(self, other)

    def __ne__(self, other):
        return not self.__eq__(other)

    __hash__ = int.__hash__


class Term:
    """value built by an instrumented callback"""
    __slots__ = ("text",)

    def __init__(self, text):
        self.text = text


class Fresh(list):
    """object returned by an instrumented factory (a new mutable object per call)"""

    def __init__(self, g, n):
        super().__init__([g, n])
        self.g, self.n = g, n

    def __bool__(self):
        return True


FALSY = {"0": 0, "''": "", "[]": [], "False": False}


def decode(val):
    """case VAL -> runtime value"""
    if val == "none":
        return None
    s = val["v"]["s"]
    if s in FALSY:
        v = FALSY[s]
        return _reg([]) if s == "[]" else v
    t = TOKS.get(s)
    if t is None:
        # names eqA* / eqN*: not-None objects whose comparison dunders claim equality with None (the model sees an
        # ordinary non-None value: Val.v)
        if s.startswith("eqA"):
            t = EqTok(s)
        elif s.startswith("eqN"):
            t = NullishInt(0)
        else:
            t = Tok(s)
        TOKS[s] = _reg(t)
    return t


def render(v):
    if v is None:
        return "None"
    t = type(v)
    # the very objects must travel through the combinators: a copy is rendered differently
    if t is Tok or t is EqTok:
        return v.name + ("" if _known(v) else "~copy")
    if t is NullishInt:
        return next((k for k, o in TOKS.items() if o is v), "eqN~copy")
    if t is Term:
        return v.text + ("" if _known(v) else "~copy")
    if t is Fresh:
        return f"{v.g}()#{v.n}" + ("" if _known(v) else "~copy")
    if v is False:
        return "False"
    if t is int and v == 0:
        return "0"
    if t is str and v == "":
        return "''"
    if t is list and v == []:
        return "[]" + ("" if _known(v) else "~copy")
    if CUR["cls"] is not None and t is CUR["cls"]:
        CUR["insts"].append(v)
        return "self"
    if isinstance(v, attr.Attribute):
        ok = CUR["cls"] is not None and any(a is v for a in attr.fields(CUR["cls"]))
        return ("attr." if ok else "attr?") + v.name
    return "?" + t.__name__


def make_fn(name, beh):
    got = FNS.get((name, beh))
    if got is not None:
        return got

    def f(*args, **kw):
        text = name + "(" + ",".join([render(a) for a in args] + [f"{k}={render(v)}" for k, v in sorted(kw.items())]) + ")"
        LOG.append(text)
        if beh == "term":
            return _reg(Term(text))
        if beh == "none":
            return None
        if beh == "falsy":
            return 0
        _raise(name)

    f.__name__ = name
    f = FNS[(name, beh)] = odd(f, CUR.get("callable", "function"))
    return f


def make_factory(g, beh):
    def fac(*args):
        text = g + "(" + ",".join(render(a) for a in args) + ")"
        n = LOG.count(text)
        LOG.append(text)
        if beh == "term":
            return _reg(Fresh(g, n))
        if beh == "none":
            return None
        if beh == "falsy":
            return 0
        _raise(g)

    fac.__name__ = g
    return odd(fac, CUR.get("callable", "function"))


def build(tree, cfg):
    (k, a), = tree.items()
    if k == "fn":
        return make_fn(a["name"], a["beh"])
    if k == "conv":
        return attr.Converter(make_fn(a["name"], a["beh"]), takes_self=a["ts"], takes_field=a["tf"])
    if k == "pipe":
        return cv.pipe(*[build(c, cfg) for c in a["cs"]])
    if k == "optional":
        return cv.optional(build(a["c"], cfg))
    if k == "dinV":
        d = decode(a["d"])
        return cv.default_if_none(d) if cfg.get("din_pos") else cv.default_if_none(default=d)
    if k == "dinF":
        fac = make_factory(a["g"], a["beh"])
        style = cfg.get("dinf", "kw")
        if style == "kw":
            return cv.default_if_none(factory=fac)
        if style == "Factory":
            return cv.default_if_none(default=attr.Factory(fac))
        return cv.default_if_none(attrs.Factory(fac, takes_self=False))
    raise ValueError(k)


def _alias(name):
    return name.lstrip("_")


def alias_map(flds):
    """field name -> (init argument name, explicit?): attrs's default alias (leading underscores stripped) unless an
    earlier field of the class already uses it (`_x` next to `x`): then the later twin gets an explicit alias="""
    used, out = set(), {}
    for f in flds:
        n = f["name"]
        a = _alias(n)
        if a in used:
            a = f"al{len(n) - len(a)}_{a}"
            out[n] = (a, True)
        else:
            out[n] = (a, False)
        used.add(a)
    return out


_N = [0]


def _noop_validator(inst, attrib, value):
    return None


def _custom_hook(inst, attrib, value):
    return value


S = attr.setters
# name -> (level, hook value or None for "leave it to the front-end's default", runs setters.convert?)
HOOKCFGS = {
    "cls_convert": ("cls", lambda: S.convert, True),
    "cls_validate": ("cls", lambda: S.validate, False),
    "cls_list": ("cls", lambda: [S.convert, S.validate], True),
    "cls_list_rev": ("cls", lambda: [S.validate, S.convert], True),
    "cls_pipe": ("cls", lambda: S.pipe(S.convert, S.validate), True),
    "cls_default": ("cls", None, True),            # define/mutable: nothing passed; attr.s/make_class: the same list
    "cls_custom": ("cls", lambda: _custom_hook, False),
    "cls_custom_convert": ("cls", lambda: [_custom_hook, S.convert], True),
    "field_convert": ("field", lambda: S.convert, True),
    "field_list": ("field", lambda: [S.convert, S.validate], True),
    "cls_validate_field_convert": ("both", lambda: S.convert, True),
}


def converts(hookcfg):
    return HOOKCFGS[hookcfg][2]


def make_class(case, make_conv, default=attr.NOTHING):
    """class with the case's fields: every `shared` field gets THE SAME converter object (unless cfg.share ==
    'rebuilt': then an equal one built separately), `own` fields a plain converter fy, `validator` fields a
    validator only, `plain` fields nothing; in the assign/setter modes the on_setattr configuration is cfg.hookcfg"""
    cfg = case.get("cfg", {})
    api = cfg.get("api", "attr.s")
    mode = case["mode"]
    kw = {}
    if cfg.get("slots") is not None:
        kw["slots"] = cfg["slots"]
    if cfg.get("frozen") and mode in ("init", "initDefault"):
        kw["frozen"] = True
    field_hook = None
    if mode in ("assign", "setter"):
        level, mkhook, _ = HOOKCFGS[cfg.get("hookcfg", "cls_convert")]
        if level == "cls":
            if mkhook is None:
                if api not in ("define", "mutable"):
                    kw["on_setattr"] = [S.convert, S.validate]
            else:
                kw["on_setattr"] = mkhook()
        elif level == "field":
            field_hook = mkhook
        else:
            kw["on_setattr"] = S.validate
            field_hook = mkhook
    mk = attr.ib if api in ("attr.s", "make_class") else attrs.field
    body = {}
    the_conv = make_conv()
    seen_default = False
    amap = alias_map(case["flds"])
    for f in case["flds"]:
        kind = f["kind"]
        if kind == "shared":
            fkw = {"converter": the_conv if cfg.get("share", "object") == "object" else make_conv()}
            if default is not attr.NOTHING:
                fkw["default"] = default
                seen_default = True
                if cfg.get("init_false"):
                    fkw["init"] = False      # the default is converted by __init__ all the same, per instance
            if cfg.get("kw_only"):
                fkw["kw_only"] = True
        else:
            fkw = {}
            if kind == "own":
                fkw["converter"] = make_fn("fy", "term")
            elif kind == "validator":
                fkw["validator"] = _noop_validator
            if cfg.get("kw_only") or seen_default:
                fkw["kw_only"] = True   # a mandatory field may follow a defaulted one only as keyword-only
        if field_hook is not None and kind in ("shared", "own"):
            fkw["on_setattr"] = field_hook()
        if amap[f["name"]][1]:
            fkw["alias"] = amap[f["name"]][0]
        body[f["name"]] = mk(**fkw)
    _N[0] += 1
    name = f"C{_N[0] % 7}"
    if api == "make_class":
        cls = attr.make_class(name, body, **kw)
    else:
        raw = types.new_class(name, (), {}, lambda ns: ns.update(body))
        deco = {"attr.s": attr.s, "define": attrs.define, "mutable": attrs.mutable}[api]
        cls = deco(**kw)(raw)
    if _N[0] % 400 == 0:
        common.purge_linecache()
    return cls


def _exc_text(e):
    # the callback's own exception object must come out, whatever its class
    if any(e is x for x in RAISED):
        return "!user:" + e.c19_name
    return "!" + common.exc_kind(e).replace("user:", "foreign-user:")


def _outcome(thunk):
    try:
        return "=" + render(thunk())
    except BaseException as e:  # noqa: BLE001
        return _exc_text(e)


def observe(case):
    cfg = case.get("cfg", {})
    del LOG[:], RAISED[:]
    REG.clear(), TOKS.clear(), FNS.clear()
    CUR["cls"] = None
    CUR["insts"] = []
    CUR["exc"] = cfg.get("exc", "UserError")
    CUR["callable"] = cfg.get("callable", "function")
    results = []
    try:
        tree = case["tree"]
        mode = case["mode"]
        # attr.ib(converter=[...]) is pipe(*[...]) only for a non-empty list (an empty one is left as it is)
        top_list = cfg.get("list_form") and "pipe" in tree and len(tree["pipe"]["cs"]) > 0
        if mode == "standalone":
            obj = build(tree, cfg)
            inst, field = _reg(Tok(case["inst"])), _reg(Tok(case["field"]))
            for val in case["inputs"]:
                v = decode(val)
                if cfg.get("rebuild"):
                    # a second combinator object over the same leaf functions: no state may be shared
                    obj = build(tree, cfg)
                if isinstance(obj, attr.Converter):
                    results.append(_outcome(lambda: obj(v, inst, field)))
                else:
                    results.append(_outcome(lambda: obj(v)))
        else:
            def conv():
                if top_list:
                    lst = [build(c, cfg) for c in tree["pipe"]["cs"]]
                    return lst if cfg.get("list_form") == "list" else tuple(lst)
                return build(tree, cfg)

            flds = case["flds"]
            every = [f["name"] for f in flds]
            if mode == "initDefault" and cfg.get("dflt_style", "value") == "value":
                # one class per distinct default; a default that comes again is another instance of the SAME
                # class: every instance must be converted on its own (calls, fresh factory results)
                classes = {}
                for val in case["inputs"]:
                    v = decode(val)
                    key = json.dumps(val, sort_keys=True)
                    cls = classes.get(key)
                    if cls is None:
                        cls = classes[key] = make_class(case, conv, default=v)
                    results.extend(_run_init(cls, flds, None, use_default=True))
            else:
                cell = [None]
                if mode == "initDefault":
                    cls = make_class(case, conv, default=attr.Factory(lambda: cell[0]))
                else:
                    cls = make_class(case, conv)
                CUR["cls"] = cls
                if mode in ("init", "initDefault"):
                    for val in case["inputs"]:
                        cell[0] = decode(val)
                        results.extend(_run_init(cls, flds, cell[0], use_default=(mode == "initDefault")))
                else:
                    o = cls.__new__(cls)
                    for val in case["inputs"]:
                        v = decode(val)
                        for fname in every:      # the value is assigned to EACH field of the class
                            n0 = len(CUR["insts"])
                            if mode == "assign":
                                def thunk():
                                    setattr(o, fname, v)
                                    return getattr(o, fname)
                                results.append(_outcome(thunk))
                            else:
                                fld = getattr(attr.fields(cls), fname)
                                results.append(_outcome(lambda: attr.setters.convert(o, fld, v)))
                            if any(i is not o for i in CUR["insts"][n0:]):
                                LOG.append("!wrong-instance")
        return {"results": results, "trace": list(LOG)}
    except BaseException as e:  # noqa: BLE001
        # nothing outside a use of the converter may run a callback (class construction, building the combinators):
        # report it as an outcome of its own instead of letting it escape
        return {"results": results + ["!outside-use:" + _exc_text(e)], "trace": list(LOG)}
    finally:
        del LOG[:], RAISED[:]
        REG.clear(), TOKS.clear(), FNS.clear()
        CUR["cls"] = None
        CUR["insts"] = []


def _run_init(cls, flds, v, use_default):
    """one instantiation: the stored value of every sharing field, or the one exception"""
    CUR["cls"] = cls
    n0 = len(CUR["insts"])
    kw = {}
    amap = alias_map(flds)
    for f in flds:
        if f["kind"] == "shared":
            if not use_default:
                kw[amap[f["name"]][0]] = v
        else:
            kw[amap[f["name"]][0]] = _reg(Tok("ty"))
    try:
        o = cls(**kw)
    except BaseException as e:  # noqa: BLE001
        return [_exc_text(e)]
    out = [_outcome(lambda n=f["name"]: getattr(o, n)) for f in flds if f["kind"] == "shared"]
    if any(i is not o for i in CUR["insts"][n0:]):
        LOG.append("!wrong-instance")
    return out


# ------------------------------------------------------------------------------------------- generation

FN_NAMES = ["f1", "f2", "f3", "f4"]
FAC_NAMES = ["g1", "g2"]
MODES = ["standalone", "init", "initDefault", "assign", "setter"]
FNAMES = ["x", "_p", "val", "converter_x", "z", "b2"]
BGNAMES = ["y", "w", "_q"]


def rand_flds(rng, mode):
    """the class's fields: 1-3 fields sharing the one converter object, 0-2 fields with their own converter"""
    n_sh = rng.choice([1, 1, 2, 2, 3]) if mode != "standalone" else 1
    names = rng.sample(FNAMES, n_sh)
    flds = [{"name": n, "kind": "shared"} for n in names]
    if mode != "standalone":
        # fields with a converter of their own, with a validator only, with nothing -- anywhere among them
        for n in rng.sample(BGNAMES, rng.choice([0, 0, 1, 1, 2, 3])):
            flds.insert(rng.randrange(len(flds) + 1), {"name": n, "kind": rng.choice(["own", "validator", "plain"])})
        if rng.random() < 0.3:
            # underscore twins in one class (`_x` next to `x`): the later one gets an explicit alias=; each
            # must still be converted by its own converter, with its own field, everywhere
            base = rng.choice(flds)["name"]
            # (no dunder-prefixed names: type() mangles such slot names, which no class body could produce)
            twin = ("_" + base) if not base.startswith("_") else base.lstrip("_")
            if all(f["name"] != twin for f in flds):
                kind = rng.choice(["own", "own", "own", "shared", "validator"])
                flds.insert(rng.randrange(len(flds) + 1), {"name": twin, "kind": kind})
    return flds
INPUT_POOL = ["none", {"v": {"s": "t0"}}, {"v": {"s": "t1"}}, {"v": {"s": "0"}}, {"v": {"s": "''"}},
              {"v": {"s": "[]"}}, {"v": {"s": "False"}}, {"v": {"s": "eqA0"}}, {"v": {"s": "eqN0"}}]
DFLT_POOL = [{"v": {"s": "d0"}}, {"v": {"s": "d1"}}, {"v": {"s": "0"}}, "none", {"v": {"s": "False"}},
             {"v": {"s": "eqA1"}}]


def rand_beh(rng, p_fault=0.08):
    r = rng.random()
    if r < p_fault:
        return "raise"
    if r < p_fault + 0.14:
        return "none"
    if r < p_fault + 0.2:
        return "falsy"
    return "term"


def rand_tree(rng, depth, p_fault=0.08):
    if depth <= 1:
        k = rng.choice(["fn", "fn", "conv", "conv", "conv", "dinV", "dinF"])
    else:
        k = rng.choice(["fn", "conv", "conv", "pipe", "pipe", "pipe", "optional", "optional", "dinV", "dinF"])
    if k == "fn":
        return {"fn": {"name": rng.choice(FN_NAMES), "beh": rand_beh(rng, p_fault)}}
    if k == "conv":
        return {"conv": {"name": rng.choice(FN_NAMES), "beh": rand_beh(rng, p_fault),
                         "ts": rng.random() < 0.5, "tf": rng.random() < 0.5}}
    if k == "pipe":
        n = rng.choice([0, 1, 2, 2, 3, 3, 4])
        return {"pipe": {"cs": [rand_tree(rng, depth - 1, p_fault) for _ in range(n)]}}
    if k == "optional":
        return {"optional": {"c": rand_tree(rng, depth - 1, p_fault)}}
    if k == "dinV":
        return {"dinV": {"d": rng.choice(DFLT_POOL)}}
    return {"dinF": {"g": rng.choice(FAC_NAMES), "beh": rng.choice(["term", "term", "term", "none", "falsy", "raise"])}}


def rand_cfg(rng, mode):
    api = rng.choice(["attr.s", "attr.s", "define", "mutable", "make_class"])
    return {
        "api": api,
        "slots": rng.choice([None, True, False]),
        "frozen": rng.random() < 0.25,
        "kw_only": rng.random() < 0.2,
        "hookcfg": rng.choice(list(HOOKCFGS)),
        "list_form": rng.choice([None, None, "list", "tuple"]),
        "dflt_style": rng.choice(["value", "factory"]),
        "dinf": rng.choice(["kw", "Factory", "Factory_pos"]),
        "din_pos": rng.random() < 0.5,
        "exc": rng.choice(list(EXC_CLASSES)),
        "rebuild": rng.random() < 0.3,
        "share": rng.choice(["object", "object", "object", "rebuilt"]),
        "init_false": rng.random() < 0.4,
        "callable": rng.choice(["function", "function", "function", "falsy", "len0"]),
    }


def rand_inputs(rng):
    n = rng.choice([1, 1, 2, 2, 3, 4])
    ins = [rng.choice(INPUT_POOL) if rng.random() < 0.6 else "none" for _ in range(n)]
    if n >= 2 and rng.random() < 0.4:
        ins[-1] = ins[0]          # the identical object again: nothing may be remembered between uses
    return ins


def with_cfg(case, cfg):
    """the case under another harness configuration (`converts` is what the hook configuration implies)"""
    return dict(case, cfg=cfg, converts=converts(cfg.get("hookcfg", "cls_convert")))


def mk_case(rng, tree, mode=None, inputs=None, flds=None):
    mode = mode or rng.choice(MODES)
    return with_cfg({
        "kind": "conv", "tree": tree, "mode": mode,
        "inputs": inputs if inputs is not None else rand_inputs(rng),
        "inst": rng.choice(["I0", "I1"]), "field": rng.choice(["F0", "F1"]),
        "flds": flds if flds is not None else rand_flds(rng, mode),
    }, rand_cfg(rng, mode))


def leaves_small():
    out = [{"fn": {"name": "f1", "beh": b}} for b in ("term", "none", "raise")]
    for ts in (False, True):
        for tf in (False, True):
            out.append({"conv": {"name": "f2", "beh": "term", "ts": ts, "tf": tf}})
    out.append({"conv": {"name": "f3", "beh": "none", "ts": True, "tf": True}})
    out.append({"dinV": {"d": {"v": {"s": "d0"}}}})
    out.append({"dinF": {"g": "g1", "beh": "term"}})
    return out


def small_trees(level):
    """all trees of combinator depth <= level over the reduced leaf alphabet (level 1: leaves;
    level 2: optional(leaf), pipe of <= 2 leaves; level 3: one more layer over a sample)"""
    l1 = leaves_small()
    yield from l1
    if level < 2:
        return
    l2 = [{"pipe": {"cs": []}}]
    l2 += [{"optional": {"c": t}} for t in l1]
    l2 += [{"pipe": {"cs": [t]}} for t in l1]
    l2 += [{"pipe": {"cs": [a, b]}} for a in l1 for b in l1]
    yield from l2
    if level < 3:
        return
    core = [t for t in l2 if "optional" in t or len(t["pipe"]["cs"]) <= 1]
    for t in core:
        yield {"optional": {"c": t}}
        yield {"pipe": {"cs": [t]}}
    for a in core[::3]:
        for b in l1:
            yield {"pipe": {"cs": [a, b]}}
            yield {"pipe": {"cs": [b, a]}}


def gen_cases(tier, rng):
    std_inputs = ["none", {"v": {"s": "t0"}}, "none", {"v": {"s": "0"}}, {"v": {"s": "t0"}}]
    # structured block: small trees x every mode
    several = [{"name": "x", "kind": "shared"}, {"name": "y", "kind": "own"}, {"name": "z", "kind": "shared"},
               {"name": "_p", "kind": "shared"}]
    for t in small_trees(2 if tier == "quick" else 3):
        for mode in MODES:
            c = mk_case(rng, t, mode, list(std_inputs))
            if mode == "initDefault":
                for i in (False, True):
                    for d in ("value", "factory"):
                        c2 = with_cfg(c, dict(c["cfg"], init_false=i, dflt_style=d))
                        yield c2
            else:
                yield c
            if mode != "standalone":
                # one converter object on three fields of the class (and a field with its own converter between)
                fl = several
                c = mk_case(rng, t, mode, [{"v": {"s": "t0"}}, "none"], flds=fl)
                c["cfg"]["share"] = "object"
                yield c
    # on assignment, multi-field classes: converter fields next to validator-only / plain / own-converter fields
    # in every order, under every on_setattr configuration and front-end; the value is assigned to each field
    S_, O_, V_, P_ = "shared", "own", "validator", "plain"
    orders = [[V_, S_], [S_, V_], [P_, V_, S_], [V_, O_, S_], [O_, V_, S_], [V_, S_, S_], [P_, S_, V_, O_],
              [V_, P_, O_], [S_], [V_, V_, S_, O_]]
    atrees = [{"fn": {"name": "f1", "beh": "term"}}, {"conv": {"name": "f2", "beh": "term", "ts": True, "tf": True}},
              {"pipe": {"cs": [{"fn": {"name": "f1", "beh": "term"}}, {"conv": {"name": "f2", "beh": "term", "ts": False, "tf": True}}]}},
              {"optional": {"c": {"fn": {"name": "f1", "beh": "term"}}}}]
    names = ["a", "b", "c", "d"]
    for ti, t in enumerate(atrees if tier == "thorough" else atrees[:3]):
        for oi, order in enumerate(orders):
            for hk in HOOKCFGS:
                for api in ("attr.s", "define", "make_class"):
                    if tier == "quick" and (ti + oi + len(hk)) % 2 and api != "attr.s":
                        continue           # quick: every (order, hook) pair on attr.s, half of the rest
                    fl = [{"name": n, "kind": k} for n, k in zip(names, order)]
                    c = mk_case(rng, t, "assign", [{"v": {"s": "t0"}}, "none"], flds=fl)
                    yield with_cfg(c, dict(c["cfg"], hookcfg=hk, api=api, share="object"))
    # underscore twins: `_x` next to `x` in one class (the later one with an explicit alias=), one carrying
    # the case's converter and the other a converter of its own, in both orders, in every class mode
    for ti, t in enumerate(atrees + [{"dinF": {"g": "g1", "beh": "term"}}]):
        for a, b in (("_x", "x"), ("x", "_x"), ("_converter_x", "converter_x")):
            for ka, kb in ((S_, O_), (O_, S_), (S_, S_)):
                for mode in MODES[1:]:
                    if tier == "quick" and mode in ("assign", "setter") and (ti or ka == kb):
                        continue
                    fl = [{"name": a, "kind": ka}, {"name": b, "kind": kb}]
                    if ti % 2:
                        fl.insert(1, {"name": "m", "kind": V_})
                    yield mk_case(rng, t, mode, [{"v": {"s": "t0"}}, "none"], flds=fl)
    # law-shaped trees: nested pipes vs flat pipes, optional / default_if_none around Converters at every level
    n = 9000 if tier == "quick" else 150000
    for _ in range(n):
        depth = rng.choice([2, 3, 3, 4, 4])
        p_fault = rng.choice([0.0, 0.05, 0.15])
        t = rand_tree(rng, depth, p_fault)
        if rng.random() < 0.5 and "pipe" not in t and "optional" not in t:
            t = {"pipe": {"cs": [rand_tree(rng, depth - 1, p_fault), t]}}
        yield mk_case(rng, t)
    # freshness: converters that produce a new object per use (default_if_none(factory=...) alone, in pipes, under
    # optional, next to Converters), used repeatedly on None -- several instances of ONE class (init=True and
    # init=False defaults, plain and Factory defaults), several assignments to one instance, several direct calls
    g = {"dinF": {"g": "g1", "beh": "term"}}
    f = {"fn": {"name": "f1", "beh": "term"}}
    fn_none = {"fn": {"name": "f2", "beh": "none"}}
    fresh_trees = [g, {"pipe": {"cs": [g]}}, {"pipe": {"cs": [g, f]}}, {"pipe": {"cs": [fn_none, g]}},
                   {"pipe": {"cs": [{"optional": {"c": f}}, g, f]}},
                   {"pipe": {"cs": [g, {"conv": {"name": "f3", "beh": "term", "ts": True, "tf": True}}]}},
                   {"pipe": {"cs": [{"conv": {"name": "f3", "beh": "none", "ts": False, "tf": False}}, g]}},
                   {"pipe": {"cs": [{"pipe": {"cs": [g]}}, {"dinF": {"g": "g2", "beh": "term"}}]}}]
    for t in fresh_trees:
        for mode in MODES:
            variants = [{}]
            if mode == "initDefault":
                variants = [{"init_false": i, "dflt_style": d} for i in (False, True) for d in ("value", "factory")]
            for var in variants:
                c = mk_case(rng, t, mode, ["none", "none", {"v": {"s": "t0"}}, "none"])
                c["cfg"].update(var)
                yield c
    # falsy-but-not-None sweep for default_if_none / optional directly
    for d in DFLT_POOL:
        for mode in MODES:
            yield mk_case(rng, {"dinV": {"d": d}}, mode, list(INPUT_POOL))
    for mode in MODES:
        yield mk_case(rng, {"dinF": {"g": "g1", "beh": "term"}}, mode, ["none", {"v": {"s": "0"}}, "none", "none"])
        yield mk_case(rng, {"optional": {"c": {"fn": {"name": "f1", "beh": "term"}}}}, mode, list(INPUT_POOL))


def depth(tree):
    (k, a), = tree.items()
    if k == "pipe":
        return 1 + max([depth(c) for c in a["cs"]] or [0])
    if k == "optional":
        return 1 + depth(a["c"])
    return 1


def walk(tree):
    yield tree
    (k, a), = tree.items()
    if k == "pipe":
        for c in a["cs"]:
            yield from walk(c)
    elif k == "optional":
        yield from walk(a["c"])


def nontrivial(case, model):
    return depth(case["tree"]) >= 2 or "conv" in case["tree"]


def dist(case, obs):
    kinds = [next(iter(t)) for t in walk(case["tree"])]
    res = obs.get("results", []) if isinstance(obs, dict) else []
    return {
        "conv.mode": case["mode"],
        "conv.depth": depth(case["tree"]),
        "conv.top": kinds[0],
        "conv.has_Converter": "conv" in kinds,
        "conv.n_inputs": len(case["inputs"]),
        "conv.outcome": "fault" if any(r.startswith("!") for r in res) else "ok",
        "conv.api": case.get("cfg", {}).get("api"),
        "conv.init_false": bool(case.get("cfg", {}).get("init_false")) if case["mode"] == "initDefault" else "-",
        "conv.repeated_input": len({json.dumps(i, sort_keys=True) for i in case["inputs"]}) < len(case["inputs"]),
        "conv.callable_style": case.get("cfg", {}).get("callable", "function"),
        "conv.n_sharing_fields": sum(1 for f in case["flds"] if f["kind"] == "shared"),
        "conv.underscore_twins": any(x[1] for x in alias_map(case["flds"]).values()),
        "conv.eq_none_input": any(isinstance(i, dict) and i["v"]["s"].startswith("eq") for i in case["inputs"]),
        "conv.other_fields": "+".join(sorted({f["kind"] for f in case["flds"] if f["kind"] != "shared"})) or "-",
        "conv.first_hooked_field": next((f["kind"] for f in case["flds"] if f["kind"] != "plain"), "-"),
        "conv.hookcfg": case.get("cfg", {}).get("hookcfg") if case["mode"] == "assign" else "-",
        "conv.exc_class": case.get("cfg", {}).get("exc") if any(r.startswith("!") for r in res) else "-",
    }


def _subtrees(tree):
    (k, a), = tree.items()
    if k == "pipe":
        cs = a["cs"]
        for c in cs:
            yield c
        for i in range(len(cs)):
            yield {"pipe": {"cs": cs[:i] + cs[i + 1:]}}
        for i, c in enumerate(cs):
            for s in _subtrees(c):
                yield {"pipe": {"cs": cs[:i] + [s] + cs[i + 1:]}}
    elif k == "optional":
        yield a["c"]
        for s in _subtrees(a["c"]):
            yield {"optional": {"c": s}}
    elif k in ("fn", "conv", "dinF") and a["beh"] != "term":
        yield {k: dict(a, beh="term")}


def shrink(case):
    for t in _subtrees(case["tree"]):
        yield dict(case, tree=t)
    ins = case["inputs"]
    if len(ins) > 1:
        for i in range(len(ins)):
            yield dict(case, inputs=ins[:i] + ins[i + 1:])
    fl = case["flds"]
    for i in range(len(fl)):
        rest = fl[:i] + fl[i + 1:]
        if any(f["kind"] == "shared" for f in rest):
            yield dict(case, flds=rest)
    base = {"api": "attr.s", "slots": None, "frozen": False, "kw_only": False, "hookcfg": "cls_convert",
            "list_form": None, "dflt_style": "value", "dinf": "kw", "din_pos": False, "exc": "UserError",
            "rebuild": False, "share": "object", "init_false": False, "callable": "function"}
    cfg = case.get("cfg", {})
    for k, v in base.items():
        if cfg.get(k) != v:
            yield with_cfg(case, dict(cfg, **{k: v}))
    if len(fl) == 1 and fl[0]["name"] != "x":
        yield dict(case, flds=[{"name": "x", "kind": "shared"}])


def neighbours(case, rng):
    for mode in MODES:
        c = with_cfg(dict(case, mode=mode), rand_cfg(rng, mode))
        yield c
        yield dict(c, flds=rand_flds(rng, mode))
        yield dict(c, inputs=list(INPUT_POOL))
    yield from shrink(case)
