"""C08, metamorphic part: one class specification (harness/initbuild.py) built twice, slots on / off, and
operated on identically; returns the construction observation of each build (compared with the shared
initializer model) and the list of further observable groups on which the two builds differ."""
from __future__ import annotations

import copy
import pickle
import sys
import types
import warnings

import attr

import common
import initbuild as ib

GROUPS = ["eq", "hash", "order", "repr", "setattr", "evolve", "asdict", "astuple", "copy", "deepcopy", "pickle", "hashcopy"]


class Box:
    """an identity-hashed, identity-compared field value: its hash does not survive deepcopy / pickle"""


def toggled(h, slots):
    h2 = copy.deepcopy(h)
    h2["classes"][-1]["slots"] = bool(slots)
    return h2


def init_case(h, call, fault):
    run, is_define, cls_on = ib.run_in(h, fault)
    if run["cfg"]["collectByMro"]:
        # what `_collect_base_attrs` sees of each class of the MRO since /repo 5cfb00c: the class's OWN
        # __attrs_attrs__ (a plain class no longer re-exports its attrs base's fields); idempotent if
        # initbuild.run_in already reports it that way
        C = ib.build(h)[-1]
        for bi, K in zip(run["bases"], C.__mro__[1:-1]):
            bi["attrs"] = [[a.name, bool(a.inherited)] for a in K.__dict__.get("__attrs_attrs__", ())]
    return {"run": run, "call": call, "isDefine": is_define, "clsOnSet": cls_on}


def hook_mro(h_off):
    """what the __setattr__ reset looks at along the leaf's MRO (the bases are the same for both builds)"""
    C = ib.build(h_off)[-1]
    out = []
    for K in C.__mro__[1:-1]:
        flag = K.__dict__.get("__attrs_own_setattr__", None)
        out.append({"direct": K in C.__bases__, "ownSetattr": None if flag is None else bool(flag)})
    return out


def make_case(h, call, fault, ops):
    h_on, h_off = toggled(h, True), toggled(h, False)
    enabled = h.get("validators_enabled", True)
    h_on["validators_enabled"] = h_off["validators_enabled"] = enabled
    off = init_case(h_off, call, fault)
    try:
        on = init_case(h_on, call, fault)
    except Exception:  # noqa: BLE001 -- the slotted twin of a definable specification does not define
        on = copy.deepcopy(off)
        on["run"]["cfg"]["slots"] = True
    # A shape in which the *dict* build is known to be broken for a reason that is another property's listed
    # finding: K2 of C04/C10 (frozen dict caching class below a slotted caching class: hash() raises) -> hash and
    # serialization (which compares hashes) are not compared.
    skip = []
    oc = off["run"]["cfg"]
    if oc["cacheHash"] and oc["frozen"] and off["run"]["cacheIsSlot"]:
        skip += ["hash", "copy", "deepcopy", "pickle", "hashcopy"]
    if h["classes"][-1].get("init") is False:
        # evolve goes through cls(...): without a generated __init__ that is whatever __init__ the class inherits
        # (written for another class's layout); out of scope, as in C12
        skip += ["evolve"]
    return {"kind": "meta", "on": on, "off": off, "mro": hook_mro(h_off), "h": h, "fault": fault, "ops": ops,
            "skip": sorted(set(skip))}


# ------------------------------------------------------------------------------------------ behaviour of one build
def _b(v):
    if v is True or v is False:
        return v
    if v is NotImplemented:
        return "NI"
    return "obj"


def _try(thunk, ok=lambda v: v):
    try:
        return ["ok", ok(thunk())]
    except BaseException as e:  # noqa: BLE001
        return ["exc", ib.exc_enum(e)]


def _values(inst, names):
    ib.SELF[0] = inst
    return ib.read_values(inst, names)


def behaviour(h, ops):
    """canonical observation of everything but construction, per group"""
    classes = ib.build(h)
    C = classes[-1]
    names = [f["name"] for f in ib.expected_fields(h)]
    enabled = h.get("validators_enabled", True)
    insts = []
    for call in ops["calls"]:
        inst, obs = ib.construct(h, call, None, enabled)
        insts.append(inst if obs["exc"] is None else None)
    live = [i for i in insts if i is not None]
    out = {}
    out["eq"] = [[_try(lambda: _b(a == b)), _try(lambda: _b(a != b))] for a in live for b in live]
    hs = [_try(lambda: hash(a)) for a in live]
    out["hash"] = [[x[0] if x[0] == "ok" else x[1] for x in hs],
                   [[hs[i][1] == hs[j][1] for j in range(len(live)) if hs[j][0] == "ok"]
                    for i in range(len(live)) if hs[i][0] == "ok"],
                   str(C.__hash__ is None)]
    out["order"] = [[_try(lambda: _b(a < b)), _try(lambda: _b(a <= b)), _try(lambda: _b(a > b)), _try(lambda: _b(a >= b))]
                    for a in live for b in live]
    out["repr"] = [[_try(lambda: repr(a)), _try(lambda: str(a))] for a in live]
    # assignments (fresh instance per assignment so that earlier writes do not interfere)
    sa = []
    prev = attr.validators.get_disabled()
    attr.validators.set_disabled(not enabled)
    try:
        for fname, call_idx in ops.get("assign", []):
            if call_idx >= len(ops["calls"]):
                continue
            inst, obs = ib.construct(h, ops["calls"][call_idx], None, enabled)
            if obs["exc"] is not None:
                sa.append("ctor-failed")
                continue
            ib.SELF[0] = inst
            del ib.TRACE[:]
            r = _try(lambda: setattr(inst, fname, "r1"), ok=lambda v: None)
            tr = list(ib.TRACE)
            del ib.TRACE[:]
            sa.append([r, tr, _values(inst, names)])
            r2 = _try(lambda: delattr(inst, fname), ok=lambda v: None)
            sa.append([r2, _values(inst, names)])
    finally:
        attr.validators.set_disabled(prev)
        del ib.TRACE[:]
    out["setattr"] = sa
    ev = []
    for call_idx, changes in ops.get("evolve", []):
        if call_idx >= len(insts) or insts[call_idx] is None:
            continue
        inst = insts[call_idx]
        ib.SELF[0] = None
        ib.SELF_CLASS[0] = C
        try:
            with warnings.catch_warnings():
                warnings.simplefilter("ignore")
                del ib.TRACE[:]
                r = _try(lambda: attr.evolve(inst, **dict(changes)))
                tr = list(ib.TRACE)
        finally:
            ib.SELF_CLASS[0] = None
            del ib.TRACE[:]
        if r[0] == "ok":
            ev.append(["ok", tr, _values(r[1], names), type(r[1]) is C])
        else:
            ev.append([r, tr])
    out["evolve"] = ev

    def _ser(v):
        return ib._canon(v) if not isinstance(v, (dict, list, tuple)) else (
            {k: _ser(x) for k, x in v.items()} if isinstance(v, dict) else [_ser(x) for x in v])

    out["asdict"] = [_try(lambda: _ser(attr.asdict(a))) for a in live]
    out["astuple"] = [_try(lambda: _ser(attr.astuple(a))) for a in live]

    def _rt(a, fn):
        ib.SELF[0] = None
        r = _try(lambda: fn(a))
        if r[0] != "ok":
            return r
        b = r[1]
        same_hash = None
        ha, hb = _try(lambda: hash(a)), _try(lambda: hash(b))
        if ha[0] == "ok" and hb[0] == "ok":
            same_hash = ha[1] == hb[1]
        else:
            same_hash = [ha[0], hb[0]]
        return ["ok", _values(b, names), type(b) is type(a), b is not a, _try(lambda: _b(a == b)), same_hash]

    # Serialization presupposes a fully initialised instance (C10's stated precondition: the generated
    # __getstate__ of slotted classes reads every field).  Exception classes are copied by
    # BaseException.__reduce__ (cls(*args) + __dict__), not by anything attrs generates: left to C10.
    ser = [a for a in live if all(v is not None for _, v in _values(a, names))]
    if h["classes"][0].get("exc_base"):
        ser = []
    out["copy"] = [_rt(a, copy.copy) for a in ser]
    out["deepcopy"] = [_rt(a, copy.deepcopy) for a in ser]
    # pickling needs importable classes
    mod = sys.modules.get("verif_synth")
    created = mod is None
    if created:
        mod = types.ModuleType("verif_synth")
        sys.modules["verif_synth"] = mod
    saved = {}
    try:
        for K in classes:
            saved[K.__name__] = getattr(mod, K.__name__, None)
            setattr(mod, K.__name__, K)
        pk = []
        for a in ser:
            for proto in ops.get("protocols", [2]):
                pk.append(_rt(a, lambda x: pickle.loads(pickle.dumps(x, proto))))
        out["pickle"] = pk

        # HISTORY hash -> copy / deepcopy / pickle -> hash, with a field value whose hash does not survive the copy:
        # a hash cached before the copy must not answer for the copy
        def _hash_history(call, fn):
            inst, obs = ib.construct(h, call, None, enabled)
            if obs["exc"] is not None:
                return "ctor-failed"
            if any(v is None for _, v in _values(inst, names)):
                return "unset-field"
            if names:
                try:
                    object.__setattr__(inst, names[0], Box())
                except BaseException:  # noqa: BLE001
                    pass
            ib.SELF[0] = None
            h0 = _try(lambda: hash(inst))
            r = _try(lambda: fn(inst))
            if r[0] != "ok":
                return [h0[0], r]
            h1 = _try(lambda: hash(r[1]))
            h2 = _try(lambda: hash(inst))
            return [h0[0], "ok", h1[0], (h1[1] == h0[1]) if h0[0] == h1[0] == "ok" else None,
                    (h2[1] == h0[1]) if h0[0] == h2[0] == "ok" else None]

        hc = []
        if not h["classes"][0].get("exc_base"):
            for call in ops["calls"]:
                hc.append(_hash_history(call, copy.copy))
                hc.append(_hash_history(call, copy.deepcopy))
                for proto in ops.get("protocols", [2]):
                    hc.append(_hash_history(call, lambda x: pickle.loads(pickle.dumps(x, proto))))
        out["hashcopy"] = hc
    finally:
        for k, v in saved.items():
            if v is None:
                if hasattr(mod, k):
                    delattr(mod, k)
            else:
                setattr(mod, k, v)
        if created:
            sys.modules.pop("verif_synth", None)
    ib.SELF[0] = None
    return out


def _reset(C):
    return C.__dict__.get("__setattr__", None) is object.__setattr__


def observe(case):
    h = case["h"]
    h_on, h_off = toggled(h, True), toggled(h, False)
    enabled = h.get("validators_enabled", True)
    h_on["validators_enabled"] = h_off["validators_enabled"] = enabled
    call, fault = case["on"]["call"], case.get("fault")
    _, o_off = ib.construct(h_off, call, fault, enabled)
    try:
        ib.build(h_on)
    except Exception as e:  # noqa: BLE001 -- no slotted class at all: the builds do not agree on anything
        o_on = {"sig": [], "annotations": [], "exc": "other", "values": [], "trace": [], "excArgs": None, "cache": None}
        o_off["cache"] = None
        return {"on": o_on, "off": o_off, "diff": ["define:" + common.exc_kind(e)], "resetOn": False,
                "resetOff": _reset(ib.build(h_off)[-1])}
    _, o_on = ib.construct(h_on, call, fault, enabled)
    o_on["cache"] = o_off["cache"] = None
    b_on, b_off = behaviour(h_on, case["ops"]), behaviour(h_off, case["ops"])
    diff = [g for g in GROUPS if g not in case.get("skip", []) and b_on.get(g) != b_off.get(g)]
    return {"on": o_on, "off": o_off, "diff": diff, "resetOn": _reset(ib.build(h_on)[-1]),
            "resetOff": _reset(ib.build(h_off)[-1])}


def explain(case):
    """both behaviours, for debugging a difference"""
    h = case["h"]
    return behaviour(toggled(h, True), case["ops"]), behaviour(toggled(h, False), case["ops"])
