"""Print the per-property status rows (theorem counts, listed findings, last evidence) for DESIGN.md section 9.3."""
import json, sys
from pathlib import Path
sys.path.insert(0, str(Path(__file__).resolve().parent))
import leantools, runner
V = Path(__file__).resolve().parent.parent
for i in range(1, 21):
    p = f"C{i:02d}"
    n = len(leantools.theorem_names(p))
    kf = sorted(runner.known_findings(p))
    ev = json.loads((V / "evidence" / f"{p}.json").read_text())
    c = ev["coverage"]
    print(f"| {p} | {n} | {' '.join(kf) or '–'} | {c['evaluations']} cases, {ev['wall_s']:.0f} s ({ev['tier']}, seed {ev['seed']}) |")
