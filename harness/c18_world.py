"""C18 helper: the world of parameters and values (JSON descriptors -> Python objects), canonical
descriptions of values, the exception universe, and the *oracle*: the results of the primitive tests
computed from their documented definition with plain Python (never through attrs).

Nothing in this module imports attr.validators."""
from __future__ import annotations

import abc
import array
import collections
import collections.abc
import decimal
import fractions
import enum
import numbers
import operator
import re
import types
import typing
import zlib

from attr.exceptions import NotCallableError


# ------------------------------------------------------------------ exception universe
class UserTypeErr(TypeError):
    pass


class UserValErr(ValueError):
    pass


class UserExc(Exception):
    pass


class UserBase(BaseException):
    pass


EXC = {
    "typeError": TypeError, "notCallable": NotCallableError, "userTypeErr": UserTypeErr,
    "valueError": ValueError, "userValErr": UserValErr, "keyError": KeyError, "indexError": IndexError,
    "attributeError": AttributeError, "zeroDiv": ZeroDivisionError, "runtimeError": RuntimeError,
    "userExc": UserExc, "reError": re.error, "userBase": UserBase,
}
_KIND = {c: k for k, c in EXC.items()}
RAISABLE = list(EXC)

EXC_CLASS = {
    "exception": Exception, "typeError": TypeError, "notCallable": NotCallableError, "userTypeErr": UserTypeErr,
    "valueError": ValueError, "userValErr": UserValErr, "lookupError": LookupError, "keyError": KeyError,
    "indexError": IndexError, "attributeError": AttributeError, "arithmeticError": ArithmeticError,
    "zeroDiv": ZeroDivisionError, "runtimeError": RuntimeError, "userExc": UserExc, "reError": re.error,
    "baseException": BaseException, "userBase": UserBase, "notExc": int, "nonClass": "a",
}


def kind(e: BaseException) -> str:
    """exact class of a raised exception -> enum name (never messages)"""
    return _KIND.get(type(e), "other")


def mk_exc(k: str) -> BaseException:
    if k == "notCallable":
        return NotCallableError(msg="hostile", value=None)
    return EXC[k]("hostile")


def prim(thunk):
    """PrimRes JSON of a truth-valued primitive"""
    try:
        return "t" if thunk() else "f"
    except BaseException as e:  # noqa: BLE001
        return {"exc": {"k": kind(e)}}


# ------------------------------------------------------------------ named objects
class Color(enum.Enum):
    RED = 1
    GREEN = 2


class UserClass:
    pass


class UserSub(UserClass):
    pass


def a_function(*a, **k):
    return None


class StrSub(str):
    """a str subclass: == and hash-equal to the plain str, a different type"""


class IntSub(int):
    pass


class TupleSub(tuple):
    pass


CLASSES = {
    "int": int, "str": str, "float": float, "bool": bool, "list": list, "dict": dict, "tuple": tuple,
    "set": set, "frozenset": frozenset, "bytes": bytes, "object": object, "NoneType": type(None), "type": type,
    "Sized": collections.abc.Sized, "Callable": collections.abc.Callable, "Iterable": collections.abc.Iterable,
    "Mapping": collections.abc.Mapping, "Hashable": collections.abc.Hashable, "Number": numbers.Number,
    "Color": Color, "UserClass": UserClass, "UserSub": UserSub, "Exception": Exception,
    "Decimal": decimal.Decimal, "Fraction": fractions.Fraction, "StrSub": StrSub, "IntSub": IntSub, "TupleSub": TupleSub,
    "Real": numbers.Real, "Integral": numbers.Integral, "complex": complex, "Sequence": collections.abc.Sequence,
    "Container": collections.abc.Container, "SimpleNamespace": types.SimpleNamespace, "ModuleType": types.ModuleType,
}
FUNCS = {"len": len, "a_function": a_function, "sorted": sorted}
_CLS_NAME = {id(c): n for n, c in CLASSES.items()}

_HOSTILE_CACHE: dict = {}
_HTYPE_CACHE: dict = {}


def _method(beh, W):
    """a dunder implementing one scripted behaviour"""
    tag = beh[0]
    if tag == "raise":
        k = beh[1]

        def m(self, *a):
            raise mk_exc(k)
        return m
    if tag == "ret":
        d = beh[1]

        def m(self, *a):
            return NotImplemented if d == "NotImplemented" else mk(d)
        return m
    if tag == "positive":           # value-dependent: a refinement type "positive int"
        return lambda self, obj: type(obj) is int and obj > 0
    if tag == "hasattr":            # value-dependent: depends on the instance's attributes
        name = beh[1]
        return lambda self, obj: name in getattr(obj, "__dict__", {})
    if tag == "truthy_len":         # value-dependent: non-empty builtin containers
        return lambda self, obj: type(obj) in (list, tuple, str, dict) and len(obj) > 0
    raise ValueError(beh)


def _freeze(x):
    if isinstance(x, dict):
        return tuple(sorted((k, _freeze(v)) for k, v in x.items()))
    if isinstance(x, list):
        return tuple(_freeze(v) for v in x)
    return x


def _hostile_class(spec):
    key = _freeze(spec)
    cls = _HOSTILE_CACHE.get(key)
    if cls is not None:
        return cls
    ns = {"_fp": "H:" + spec["name"], "__slots__": ("_members", "_map")}
    for meth, beh in spec["m"].items():
        if meth == "iter":
            # ["yield", [member descs], kind|None]: yields the instance's members, then raises / stops;
            # ["raise", kind]: iter() itself raises
            if beh[0] == "raise":
                ns["__iter__"] = _method(beh, None)
            else:
                stop = beh[2]

                def it(self, _stop=stop):
                    yield from self._members
                    if _stop is not None:
                        raise mk_exc(_stop)
                ns["__iter__"] = it
        elif meth == "getitem":
            # ["map", [[key desc, value desc | ["!raise", kind]] ...], default kind]
            if beh[0] == "raise":
                ns["__getitem__"] = _method(beh, None)
            else:
                dk = beh[2]

                def gi(self, key, _dk=dk):
                    f = fp(key)
                    for kf, v in self._map:
                        if kf == f:
                            if isinstance(v, BaseException):
                                raise v
                            return v
                    raise mk_exc(_dk)
                ns["__getitem__"] = gi
        elif meth == "call":
            ns["__call__"] = lambda self, *a, **k: None
        else:
            ns["__%s__" % meth] = _method(beh, None)
    cls = type("H_" + spec["name"], (object,), ns)
    _HOSTILE_CACHE[key] = cls
    return cls


def _hostile(spec):
    cls = _hostile_class(spec)
    o = cls()
    m = spec["m"]
    members, mp = [], []
    if "iter" in m and m["iter"][0] == "yield":
        members = [mk(d) for d in m["iter"][1]]
    if "getitem" in m and m["getitem"][0] == "map":
        for kd, vd in m["getitem"][1]:
            v = mk_exc(vd[1]) if (isinstance(vd, list) and vd and vd[0] == "!raise") else mk(vd)
            mp.append((fp(mk(kd)), v))
    object.__setattr__(o, "_members", members)
    object.__setattr__(o, "_map", mp)
    return o


_INTERVAL_CACHE: dict = {}


def _interval_class(hashable, itermode, eqdef):
    """a range-like container with VALUE membership: `x in Interval(lo, hi)` is `lo <= x <= hi` (a TypeError for
    incomparable x), which is not "equal to one of the iterated items"
       itermode -- None: not iterable; "ends": yields lo, hi; "ints": every int inside; "outside": yields hi + 5 only
       eqdef    -- `==` by (lo, hi) (then unhashable unless `hashable`), else identity"""
    key = (hashable, itermode, eqdef)
    cls = _INTERVAL_CACHE.get(key)
    if cls is not None:
        return cls
    ns = {"_interval": True}

    def __init__(self, lo, hi):
        self.lo, self.hi = lo, hi

    def __contains__(self, x):
        return self.lo <= x <= self.hi

    def __repr__(self):
        return "Interval(%r, %r)" % (self.lo, self.hi)
    ns.update(__init__=__init__, __contains__=__contains__, __repr__=__repr__)
    if itermode == "ends":
        ns["__iter__"] = lambda self: iter((self.lo, self.hi))
    elif itermode == "ints":
        ns["__iter__"] = lambda self: iter(range(self.lo, self.hi + 1))
        ns["__len__"] = lambda self: self.hi + 1 - self.lo
    elif itermode == "outside":
        ns["__iter__"] = lambda self: iter((self.hi + 5,))
    if eqdef:
        ns["__eq__"] = lambda self, other: type(other) is type(self) and (self.lo, self.hi) == (other.lo, other.hi)
        ns["__hash__"] = (lambda self: hash((self.lo, self.hi))) if hashable else None
    elif not hashable:
        ns["__hash__"] = None
    cls = type("Interval", (object,), ns)
    _INTERVAL_CACHE[key] = cls
    return cls


_LIAR_CACHE: dict = {}


def _liar(spec):
    """an object whose attribute protocol lies while its TYPE has none of the special methods:
       inst     -- dunders stored on the instance (`obj.__call__ = f`): operators and callable()/len() ignore them
       getattr  -- "all": `__getattr__` answers every name with a function; ["raise", kind]: it raises that
       cls      -- `__class__` is a property naming another class (isinstance() believes it, type() does not)"""
    key = _freeze({k: v for k, v in spec.items() if k != "inst"}) + (tuple(sorted(spec.get("inst", []))),)
    cls = _LIAR_CACHE.get(key)
    if cls is None:
        ns = {"_fp": "L:" + spec["name"]}
        ga = spec.get("getattr")
        if ga == "all":
            ns["__getattr__"] = lambda self, name: (lambda *a, **k: True)
        elif ga:
            k = ga[1]

            def __getattr__(self, name, _k=k):
                raise mk_exc(_k)
            ns["__getattr__"] = __getattr__
        if spec.get("cls"):
            target = CLASSES[spec["cls"]]
            ns["__class__"] = property(lambda self, _t=target: _t)
        cls = type("Liar_" + spec["name"], (object,), ns)
        _LIAR_CACHE[key] = cls
    o = cls()
    for name in spec.get("inst", []):
        if name == "__len__":
            f = lambda *a: 1                    # noqa: E731
        elif name in ("__iter__",):
            f = lambda *a: iter([1])            # noqa: E731
        elif name == "__hash__":
            f = lambda *a: 1                    # noqa: E731
        else:
            f = lambda *a, **k: True            # noqa: E731
        o.__dict__[name] = f
    return o


def _htype(spec):
    """a class whose metaclass scripts `__instancecheck__`"""
    key = _freeze(spec)
    cls = _HTYPE_CACHE.get(key)
    if cls is None:
        meta = type("Meta_" + spec["name"], (type,), {"__instancecheck__": _method(spec["instancecheck"], None)})
        cls = meta("HT_" + spec["name"], (object,), {})
        _HTYPE_CACHE[key] = cls
    return cls


# ------------------------------------------------------------------ the per-case world
# Classes whose isinstance() answers can change over time (ABC registration) or depend on the instance
# (protocols with data members, value-dependent __instancecheck__) are created afresh for every case --
# on the oracle side and on the observing side separately -- so that no state leaks between cases.
WORLD: dict = {}


def new_world():
    WORLD.clear()


def _world_class(kind, name, extra=None):
    key = (kind, name, _freeze(extra) if extra is not None else None)
    cls = WORLD.get(key)
    if cls is not None:
        return cls
    if kind == "wcls":
        cls = type(name, (object,), {"_wname": name})
    elif kind == "wabc":
        cls = abc.ABCMeta(name, (object,), {})
    elif kind == "wproto":
        cls = types.new_class(name, (typing.Protocol,), {},
                              lambda ns: ns.update({"__annotations__": {extra: int}, "__module__": __name__}))
        cls = typing.runtime_checkable(cls)
    elif kind == "wtype":
        meta = type("Meta_" + name, (type,), {"__instancecheck__": _method(extra, None)})
        cls = meta(name, (object,), {})
    else:
        raise ValueError(kind)
    WORLD[key] = cls
    return cls


def apply_op(op, hist):
    """a change of the world between two calls of a history; `hist` = the objects of the earlier calls"""
    tag = op[0]
    if tag == "register":           # SomeABC.register(SomeClass)
        mk(op[1]).register(mk(op[2]))
    elif tag == "setattr":          # only on instances of world classes (anything else: no-op)
        if op[1] < len(hist) and isinstance(type(hist[op[1]]).__dict__.get("_wname"), str):
            setattr(hist[op[1]], op[2], mk(op[3]))
    elif tag == "delattr":
        if op[1] < len(hist) and isinstance(type(hist[op[1]]).__dict__.get("_wname"), str) \
                and op[2] in hist[op[1]].__dict__:
            delattr(hist[op[1]], op[2])
    elif tag == "append":
        if op[1] < len(hist) and type(hist[op[1]]) is list:
            hist[op[1]].append(mk(op[2]))
    else:
        raise ValueError(op)


def mk(d):
    """descriptor -> a fresh Python object (classes / functions / enum members are shared)"""
    tag = d[0]
    if tag in ("wcls", "wabc"):
        return _world_class(tag, d[1])
    if tag in ("wproto", "wtype"):
        return _world_class(tag, d[1], d[2])
    if tag == "winst":
        o = _world_class("wcls", d[1])()
        for k, v in d[2]:
            setattr(o, k, mk(v))
        return o
    if tag == "int":
        return int(d[1])
    if tag == "bool":
        return bool(d[1])
    if tag == "float":
        return float.fromhex(d[1])
    if tag == "nan":
        return float("nan")
    if tag == "inf":
        return float("inf")
    if tag == "str":
        return str(d[1])
    if tag == "bytes":
        return d[1].encode("latin1")
    if tag == "none":
        return None
    if tag == "list":
        return [mk(e) for e in d[1]]
    if tag == "tuple":
        return tuple(mk(e) for e in d[1])
    if tag == "dict":
        out = {}
        for k, v in d[1]:
            out[mk(k)] = mk(v)
        return out
    if tag == "set":
        s = set()
        for e in d[1]:
            s.add(mk(e))
        return s
    if tag == "frozenset":
        return frozenset(mk(e) for e in d[1])
    if tag == "range":
        return range(d[1], d[2])
    if tag == "cls":
        return CLASSES[d[1]]
    if tag == "fn":
        return FUNCS[d[1]]
    if tag == "lambda":
        return lambda *a: None
    if tag == "enum":
        return Color[d[1]]
    if tag == "union":
        out = CLASSES[d[1][0]]
        for n in d[1][1:]:
            out = out | CLASSES[n]
        return out
    if tag == "generic":
        return list[int]
    if tag == "bytearray":
        return bytearray(d[1].encode("latin1"))
    if tag == "deque":
        return collections.deque(mk(e) for e in d[1])
    if tag == "userlist":
        return collections.UserList([mk(e) for e in d[1]])
    if tag == "ordereddict":
        return collections.OrderedDict((mk(k), mk(v)) for k, v in d[1])
    if tag == "array":
        return array.array("i", d[1])
    if tag == "interval":
        f = d[3]
        return _interval_class(bool(f.get("hashable")), f.get("iter"), bool(f.get("eq")))(d[1], d[2])
    if tag == "decimal":
        return decimal.Decimal(d[1])
    if tag == "fraction":
        return fractions.Fraction(d[1], d[2])
    if tag == "complex":
        return complex(d[1], 0)
    if tag == "strsub":
        return StrSub(d[1])
    if tag == "intsub":
        return IntSub(d[1])
    if tag == "tuplesub":
        return TupleSub(mk(e) for e in d[1])
    if tag == "liar":
        return _liar(d[1])
    if tag == "ns":
        return types.SimpleNamespace(**{k: mk(v) for k, v in d[1]})
    if tag == "module":
        m = types.ModuleType(d[1])
        for k, v in d[2]:
            setattr(m, k, mk(v))
        return m
    if tag == "Hsubtype":
        # a class whose metaclass scripts __subclasscheck__ only (isinstance() must not consult it)
        key = ("Hsubtype", d[1], bool(d[2]))
        c = _HTYPE_CACHE.get(key)
        if c is None:
            meta = type("MetaS_" + d[1], (type,), {"__subclasscheck__": lambda cls, sub, _r=bool(d[2]): _r})
            c = _HTYPE_CACHE[key] = meta("HS_" + d[1], (object,), {})
        return c
    if tag == "pat":
        return re.compile(d[1], d[2])
    if tag == "bpat":
        return re.compile(d[1].encode("latin1"), d[2])
    if tag == "H":
        return _hostile(d[1])
    if tag == "Htype":
        return _htype(d[1])
    raise ValueError(f"descriptor {d!r}")


def fp(v) -> str:
    """canonical description of a value; never calls a method the value could have overridden"""
    t = type(v)
    f = t.__dict__.get("_fp") if hasattr(t, "__dict__") else None
    if isinstance(f, str):
        return f
    w = t.__dict__.get("_wname") if hasattr(t, "__dict__") else None
    if isinstance(w, str):
        return "W:" + w + "{" + ",".join(k + "=" + fp(x) for k, x in sorted(v.__dict__.items())) + "}"
    if v is None:
        return "None"
    if t is bool:
        return "bool:%s" % v
    if t is int:
        return "int:%d" % v
    if t is float:
        return "float:nan" if v != v else "float:" + v.hex()
    if t is str:
        return "str:" + v
    if t is bytes:
        return "bytes:" + v.hex()
    if t is list:
        return "list[" + ",".join(fp(e) for e in v) + "]"
    if t is tuple:
        return "tuple[" + ",".join(fp(e) for e in v) + "]"
    if t is dict:
        return "dict{" + ",".join(fp(k) + "=" + fp(x) for k, x in v.items()) + "}"
    if t is set or t is frozenset:
        return t.__name__ + "{" + ",".join(sorted(fp(e) for e in v)) + "}"
    if t is range:
        return "range(%d,%d,%d)" % (v.start, v.stop, v.step)
    if t is bytearray:
        return "bytearray:" + bytes(v).hex()
    if t.__dict__.get("_interval") is True:
        return "interval(%s,%s)" % (fp(v.lo), fp(v.hi))
    if t is decimal.Decimal:
        return "decimal:" + str(v)
    if t is fractions.Fraction:
        return "fraction:%d/%d" % (v.numerator, v.denominator)
    if t is complex:
        return "complex:" + v.real.hex()
    if t is StrSub:
        return "strsub:" + str.__str__(v)
    if t is IntSub:
        return "intsub:%d" % int(v)
    if t is TupleSub:
        return "tuplesub[" + ",".join(fp(e) for e in tuple.__iter__(v)) + "]"
    if t is types.SimpleNamespace:
        return "ns{" + ",".join(sorted(v.__dict__)) + "}"
    if t is types.ModuleType:
        return "module:" + v.__dict__.get("__name__", "?")
    if isinstance(v, type):
        return "cls:" + v.__name__
    if t is Color:
        return "enum:" + v.name
    if t is re.Pattern:
        return "pat:%s/%d" % (v.pattern, v.flags)
    n = getattr(v, "__name__", None)
    if isinstance(n, str):
        return "fn:" + n
    return "obj:" + t.__name__


# ------------------------------------------------------------------ documented primitives
OPS = {"lt": (0, operator.lt), "le": (1, operator.le), "ge": (2, operator.ge), "gt": (3, operator.gt)}
RE_FUNCS = [re.fullmatch, re.search, re.match]
RE_NAMES = {"fullmatch": re.fullmatch, "search": re.search, "match": re.match, "findall": re.findall,
            "compile": re.compile, "sub": re.sub}


def doc_options(o):
    """"dicts, lists, and sets are transparently transformed into a tuple" (documented since 24.1.0)"""
    return tuple(o) if isinstance(o, (list, dict, set)) else o


def len_res(v):
    try:
        return {"ok": {"n": len(v)}}
    except BaseException as e:  # noqa: BLE001
        return {"exc": {"k": kind(e)}}


def probe_result(salt, pid, choices, f):
    return choices[zlib.crc32(f"{salt}/{pid}/{f}".encode()) % len(choices)]


MAX_MEMBERS = 9


class Oracle:
    """value table + primitive rows for one case"""

    def __init__(self, params, objs):
        self.P = params
        self.objs = objs
        self.values = []
        self.vrows = []
        self.rows = {}
        self._members = {}
        self.in_literal_differs = 0

    # -- values
    def reg(self, obj) -> int:
        vid = len(self.values)
        self.values.append(obj)
        self.vrows.append({"id": vid, "fp": fp(obj), "isNone": obj is None, "callable": bool(callable(obj)),
                           "len": len_res(obj), "iter": None})
        return vid

    def ensure_iter(self, vid, need_get):
        row = self.vrows[vid]
        obj = self.values[vid]
        if row["iter"] is None:
            members, stop = [], None
            try:
                it = iter(obj)
            except BaseException as e:  # noqa: BLE001
                stop = kind(e)
            else:
                while True:
                    try:
                        m = next(it)
                    except StopIteration:
                        break
                    except BaseException as e:  # noqa: BLE001
                        stop = kind(e)
                        break
                    members.append(m)
                    if len(members) > MAX_MEMBERS:
                        raise RuntimeError("value pool member too long")
            self._members[vid] = members
            row["iter"] = {"items": [{"key": self.reg(m), "get": "na"} for m in members], "stop": stop}
        if need_get:
            for item, m in zip(row["iter"]["items"], self._members[vid]):
                if item["get"] == "na":
                    try:
                        y = obj[m]
                    except BaseException as e:  # noqa: BLE001
                        item["get"] = {"exc": {"k": kind(e)}}
                    else:
                        item["get"] = {"ok": {"v": self.reg(y)}}
        return row["iter"]

    def put(self, key, thunk):
        key = tuple(key)
        if key not in self.rows:
            self.rows[key] = thunk() if callable(thunk) else thunk

    # -- rows for one node on one value (over-approximation of what evaluation can reach)
    def fill(self, node, vid):
        if isinstance(node, str):
            return
        (tag, a), = node.items()
        v = self.values[vid]
        o = self.objs
        if tag == "instOf":
            self.put([0, a["t"], vid], lambda: prim(lambda: isinstance(v, o["types"][a["t"]])))
        elif tag == "in_":
            self.put([1, a["o"], vid], lambda: prim(lambda: v in doc_options(o["opts"][a["o"]])))
            # for the record only: does the literal `value in options` (TypeError = absent) say the same?
            lit = prim(lambda: v in o["opts"][a["o"]])
            absent = lambda r: "f" if (isinstance(r, dict) and r["exc"]["k"] in ("typeError", "notCallable", "userTypeErr")) else r  # noqa: E731
            if absent(lit) != absent(self.rows[(1, a["o"], vid)]):
                self.in_literal_differs += 1
        elif tag == "num":
            code, fn = OPS[a["op"]]
            self.put([2, code, a["b"], vid], lambda: prim(lambda: fn(v, o["bounds"][a["b"]])))
        elif tag == "matchesRe":
            rx = o["regex"][a["r"]]
            for f in (0, 1, 2):
                self.put([3, a["r"], a["flags"], f, vid],
                         lambda f=f: prim(lambda: RE_FUNCS[f](rx, v, a["flags"]) is not None))
        elif tag in ("maxLen", "minLen"):
            b = a["b"]
            ln = self.vrows[vid]["len"]
            if "opaque" in b and "ok" in ln:
                n = ln["ok"]["n"]
                B = o["lbounds"][b["opaque"]["id"]]
                is_max = tag == "maxLen"
                self.put([4, 1 if is_max else 0, b["opaque"]["id"], n],
                         lambda: prim(lambda: not (n > B) if is_max else not (n < B)))
        elif tag == "probe":
            pr = self.P["probes"][str(a["p"])]
            r = probe_result(self.P["salt"], a["p"], pr["choices"], self.vrows[vid]["fp"])
            self.put([5, a["p"], vid], "t" if r == "pass" else {"exc": {"k": r}})
        elif tag == "optional":
            self.fill(a["v"], vid)
        elif tag == "not_":
            self.fill(a["v"], vid)
        elif tag in ("optionalSeq", "or_", "and_", "andRaw"):
            for c in a["vs"]:
                self.fill(c, vid)
        elif tag in ("deepIter", "deepIterSeq"):
            self.fill(a["it"], vid)
            it = self.ensure_iter(vid, False)
            for item in it["items"]:
                if tag == "deepIter":
                    self.fill(a["m"], item["key"])
                else:
                    for c in a["ms"]:
                        self.fill(c, item["key"])
        elif tag == "deepMap":
            self.fill(a["m"], vid)
            it = self.ensure_iter(vid, True)
            for item in it["items"]:
                self.fill(a["k"], item["key"])
                if isinstance(item["get"], dict) and "ok" in item["get"]:
                    self.fill(a["v"], item["get"]["ok"]["v"])
        else:
            raise ValueError(tag)

    def rows_json(self):
        return [{"k": list(k), "r": r} for k, r in self.rows.items()]


# ------------------------------------------------------------------ constructor / equality oracles
def compiled(rx, fl):
    return rx if isinstance(rx, re.Pattern) else re.compile(rx, fl)


def build_rows(put, objs, regex_uses):
    for (r, fl) in sorted(regex_uses):
        rx = objs["regex"][r]
        isp = isinstance(rx, re.Pattern)
        put([6, r], "t" if isp else "f")
        if not isp:
            put([7, r, fl], prim(lambda: (re.compile(rx, fl), True)[1]))


def stored(o):
    return tuple(o) if isinstance(o, (list, dict, set)) else o


def hash_res(thunk):
    try:
        hash(thunk())
        return "t"
    except BaseException as e:  # noqa: BLE001
        return {"exc": {"k": kind(e)}}


def hash_eq(a, b):
    try:
        return "t" if hash(a()) == hash(b()) else "f"
    except BaseException:  # noqa: BLE001
        return "f"


SORTS = {0: "types", 1: "opts", 2: "opts", 3: "bounds", 4: "lbounds", 5: "regex"}


def eq_rows(put, objs1, objs2, uses1, uses2, re1, re2):
    """rows 10, 11, 13, 14, 15 for every pair of same-sort parameters used by the two expressions"""
    for s, name in SORTS.items():
        conv = stored if s == 2 else (lambda x: x)
        srt = 1 if s == 2 else s
        for p in sorted(uses1.get(srt, ())):
            put([13, s, p], hash_res(lambda: conv(objs1[name][p])))
        for p in sorted(uses2.get(srt, ())):
            put([13, s, p], hash_res(lambda: conv(objs2[name][p])))
        for p in sorted(uses1.get(srt, ())):
            for q in sorted(uses2.get(srt, ())):
                a, b = conv(objs1[name][p]), conv(objs2[name][q])
                put([10, s, p, q], prim(lambda: a == b))
                put([14, s, p, q], hash_eq(lambda: a, lambda: b))
    for (r, fl) in sorted(re1):
        for (r2, fl2) in sorted(re2):
            try:
                a, b = compiled(objs1["regex"][r], fl), compiled(objs2["regex"][r2], fl2)
            except BaseException:  # noqa: BLE001  -- does not compile: the constructor fails anyway
                continue
            put([11, r, fl, r2, fl2], prim(lambda: a == b))
            put([15, r, fl, r2, fl2], hash_eq(lambda: a, lambda: b))
