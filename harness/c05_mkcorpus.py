"""Regenerate known_findings.d/C05.json (witness cases) and corpus/C05/*.json from hand-written hierarchy specs.
Run from the worktree root:  /venv/bin/python harness/c05_mkcorpus.py   (needs the built driver: ./check setup)"""
from __future__ import annotations

import json
import os
import sys
from pathlib import Path

HERE = Path(__file__).resolve().parent
sys.path.insert(0, str(HERE))
os.chdir(HERE.parent)
import leantools  # noqa: E402
import runner  # noqa: E402

prop = runner.load_prop("C05")


def F(name, **kw):
    f = {"name": name, "default": "none", "init": True, "kw_only": False, "alias": None, "converter": None,
         "validators": 0, "on_setattr": "unset", "type": None, "conv_type": False}
    f.update(kw)
    return f


def C(name, api="attr.s", **kw):
    c = {"kind": "attrs", "name": name, "api": api, "slots": None, "frozen": False, "kw_only": False, "cache_hash": False,
         "pre": "none", "post": False, "cls_on_setattr": "unset", "fields": []}
    c.update(kw)
    return c


def P(name, **kw):
    p = {"kind": "plain", "name": name, "plain_slots": False, "pre": "none", "post": False}
    p.update(kw)
    return p


def H(classes, tail=(), exc=False, exc_root=None):
    classes[0]["exc_base"] = exc
    if exc and exc_root:
        classes[0]["exc_root"] = exc_root
    return {"classes": classes, "validators_enabled": True, "tail": list(tail)}


ALLCOPY = ["copy", "deepcopy"] + [{"pickle": {"proto": p}} for p in range(6)]
W = {
    "K05a": (H([C("C0", frozen=True, slots=False)], tail=[{"name": "T0", "plain_slots": False, "user_set": True}]),
             {"pos": [], "kw": []}, [{"set": {"name": "zz_new", "v": "s1"}}], "k05a"),
    "K3": (H([C("C0", frozen=True, slots=True, fields=[F("x")]), C("C1", frozen=True, slots=False), C("C2", frozen=True, slots=False)]),
           {"pos": ["t1"], "kw": []}, [], "valid"),
    "K2": (H([C("C0", slots=True, cache_hash=True, unsafe_hash=True),
              C("C1", api="define", frozen=True, slots=False, cache_hash=True, unsafe_hash=True)]),
           {"pos": [], "kw": []}, ["hash"], "valid"),
    "K11": (H([C("C0", frozen=True, slots=True, getstate_setstate=False, fields=[F("x")])]),
            {"pos": ["t1"], "kw": []}, ["copy"], "valid"),
}
WHAT = {
    "K05a": "the first class along the instance's MRO that defines __setattr__ (or __delattr__) is not attrs's frozen one although a class of the MRO is declared frozen: a subclass (plain, or attrs-decorated without frozen=True) whose body defines __setattr__/__delattr__, or a mixin defining one that is listed before the frozen base -- Python's MRO then never reaches _frozen_setattrs and instances are mutable (for a custom __setattr__ alone, deletion still raises)",
    "K3": "a frozen dict class whose inherited (or re-declared) field is a slot in some class of the MRO while _is_slot_attr(base_attr_map) says it is not: __init__ writes the value to __dict__ and the empty slot shadows it -- the frozen instance is constructed with that field unreadable (reads, augmented assignment, hash, copy through attrs' __getstate__, evolve raise AttributeError)",
    "K2": "a frozen dict cache_hash class below a slotted cache_hash class: __init__ writes _attrs_cached_hash into __dict__ while __hash__ reads the empty slot: the instance is constructed without a usable hash cache and hash() raises AttributeError",
    "K11": "slots without any __getstate__ (explicit getstate_setstate=False on a slotted class): copy.copy / copy.deepcopy / unpickling restore slot values with setattr, which a frozen class refuses with FrozenInstanceError (only when at least one slot holds a value)",
}
PRED = {"K05a": "Attrs.C05.notFirstDefiner", "K3": "Attrs.C05.k3", "K2": "Attrs.C05.k2", "K11": "Attrs.C05.k11"}

CORP = {
    "f8-inherited-frozen-init-false-hook": (
        H([C("C0", frozen=True, slots=False, fields=[F("x")]), C("C1", frozen=False, slots=False, fields=[F("w", init=False, on_setattr="hook")])]),
        {"pos": ["t1"], "kw": []}, [{"set": {"name": "x", "v": "s1"}}, {"set": {"name": "w", "v": "s2"}}, {"del": {"name": "x"}}], "malformed"),
    "f8-direct-frozen-init-false-noop": (
        H([C("C0", api="define", frozen=True, fields=[F("x"), F("w", init=False, on_setattr="noop")])]),
        {"pos": ["t1"], "kw": []}, [{"set": {"name": "w", "v": "s2"}}], "malformed"),
    "hooked-base-frozen-slots": (
        H([C("C0", cls_on_setattr="hook", fields=[F("x", default="value")]), C("C1", frozen=True, slots=True, fields=[F("y", default="value")])]),
        {"pos": [], "kw": []}, [{"set": {"name": "x", "v": "s1"}}, {"del": {"name": "y"}}, {"set": {"name": "y", "v": "@same"}}, "copy",
                                 {"evolve": {"changes": [["y", "n1"]]}}], "valid"),
    "hooked-base-frozen-dict": (
        H([C("C0", api="define", slots=False, fields=[F("x", default="value", validators=1)]), C("C1", api="define", frozen=True, slots=False)]),
        {"pos": [], "kw": []}, [{"set": {"name": "x", "v": "s1"}}, {"aug": {"name": "x", "v": "+a"}}, "hash", "deepcopy", {"pickle": {"proto": 2}}], "valid"),
    "define-below-plain-below-frozen-validators": (
        H([C("C0", api="frozen", frozen=None, fields=[F("x")]), P("P1"),
           C("C2", api="define", frozen=False, fields=[F("y", default="value", validators=1, converter="plain")])], tail=[{"name": "T0", "plain_slots": True}]),
        {"pos": ["t1"], "kw": []}, [{"set": {"name": "y", "v": "s1"}}, {"del": {"name": "zz_new"}}, {"set": {"name": "__cause__", "v": "E1"}},
                                     {"set": {"name": "_attrs_cached_hash", "v": "s1"}}] + ALLCOPY, "valid"),
    "mixin-before-define-leaf": (
        H([C("C0", frozen=True, slots=False, fields=[F("x")]),
           dict(C("C1", api="define", frozen=False, fields=[F("y", default="value", validators=2)]),
                mixin={"kind": "plain", "slots": True, "api": "attr.s", "pos": "before"})]),
        {"pos": ["t1"], "kw": []}, [{"set": {"name": "y", "v": "@equal"}}, {"del": {"name": "x"}}], "valid"),
    "frozen-exception-bookkeeping": (
        H([C("C0", api="frozen", frozen=None, fields=[F("x")])], exc=True),
        {"pos": ["t1"], "kw": []}, ["raise_", {"set": {"name": "__traceback__", "v": "None"}}, "raiseFrom", "chain", {"addNote": {"v": "n1"}},
                                     {"addNote": {"v": "n2"}}, {"del": {"name": "__notes__"}}, {"del": {"name": "__notes__"}},
                                     {"set": {"name": "x", "v": "s1"}}, {"del": {"name": "__cause__"}}, {"set": {"name": "__class__", "v": "@cls"}},
                                     {"withTb": {"present": True}}, {"set": {"name": "__suppress_context__", "v": "False"}}], "valid"),
    "frozen-cache-hash-slots": (
        H([C("C0", frozen=True, slots=True, cache_hash=True, unsafe_hash=True, fields=[F("x")])]),
        {"pos": ["t1"], "kw": []}, [{"set": {"name": "_attrs_cached_hash", "v": "s1"}}, "hash", {"del": {"name": "_attrs_cached_hash"}}, "hash", "copy",
                                     {"pickle": {"proto": 0}}], "valid"),
    # mixed storage: the dict child of a slotted base must get its own state pair (K4 repair, 8a7ab1e)
    "dict-below-slots-define-own-fields": (
        H([C("C0", api="frozen", frozen=None, fields=[F("x")]), C("C1", api="frozen", frozen=None, slots=False, fields=[F("y"), F("z", default="factory")])]),
        {"pos": ["t1", "t2"], "kw": []}, ["hash"] + ALLCOPY + [{"set": {"name": "y", "v": "s1"}}], "valid"),
    "dict-below-slots-attrs-inherited-frozen-cache": (
        H([C("C0", frozen=True, slots=True, fields=[F("x")]), C("C1", frozen=False, slots=False, cache_hash=True, unsafe_hash=True, fields=[F("y", converter="plain")])]),
        {"pos": ["t1", "t2"], "kw": []}, ["hash"] + ALLCOPY + ["hash", {"del": {"name": "y"}}], "valid"),
    "dict-below-slots-cache-only-child": (
        H([C("C0", api="frozen", frozen=None, fields=[F("x")]), C("C1", api="define", frozen=None, slots=False, cache_hash=True, unsafe_hash=True)]),
        {"pos": ["t1"], "kw": []}, ALLCOPY + ["hash"] + ALLCOPY, "valid"),
    # decorator-object histories: the decision taken for an earlier class must not stick to the decorator
    "deco-history-own-getstate-then-frozen-slots": (
        H([dict(C("C0", frozen=True, slots=True, auto_detect=True, fields=[F("x"), F("y", default="value")]),
                deco_hist=[{"own": ["getstate"], "base": "object", "field": True}])], tail=[{"name": "T0", "plain_slots": False}]),
        {"pos": ["t1"], "kw": []}, ALLCOPY + [{"set": {"name": "x", "v": "s1"}}], "valid"),
    "deco-history-plain-then-dict-below-slots": (
        H([C("C0", frozen=True, slots=True, fields=[F("x")]),
           dict(C("C1", frozen=True, slots=False, fields=[F("y")]), deco_hist=[{"own": [], "base": "object", "field": False}])]),
        {"pos": ["t1", "t2"], "kw": []}, ALLCOPY + ["hash"], "valid"),
    "deco-history-define-own-setattr-hash-init": (
        H([dict(C("C0", api="define", frozen=True, fields=[F("x")]),
                deco_hist=[{"own": ["setattr", "hash"], "base": "dict_attrs", "field": False}, {"own": ["init", "getstate"], "base": "slotted_attrs", "field": True}])]),
        {"pos": ["t1"], "kw": []}, ["hash", "copy", {"pickle": {"proto": 2}}, {"del": {"name": "x"}}, {"evolve": {"changes": [["x", "n1"]]}}], "valid"),
    # history: hash the original (fills the cache), then evolve / copy: the result hashes like a fresh twin
    "hash-then-evolve-dict-cache-plain-fields": (
        H([C("C0", frozen=True, slots=False, cache_hash=True, unsafe_hash=True, fields=[F("x"), F("y", default="value")])],
          tail=[{"name": "T0", "plain_slots": False}]),
        {"pos": ["t1"], "kw": []}, ["hash", {"evolve": {"changes": [["x", "n1"]]}}, "copy", {"evolve": {"changes": []}}, "deepcopy"], "valid"),
    "hash-then-evolve-frozen-via-ancestor-define-dict-cache": (
        H([C("C0", api="frozen", frozen=None, slots=False, fields=[F("x")]),
           C("C1", api="define", frozen=False, slots=False, cache_hash=True, unsafe_hash=True, fields=[F("y")])]),
        {"pos": ["t1", "t2"], "kw": []}, ["hash", {"evolve": {"changes": [["y", "n1"]]}}, {"pickle": {"proto": 4}}], "valid"),
    # the VALUE dimension: mutable / unhashable field values, the very object, an equal copy, real in-place operators
    "mutable-values-same-equal-inplace-dict-class": (
        H([C("C0", frozen=True, slots=False, fields=[F("x"), F("y"), F("z")])], tail=[{"name": "T0", "plain_slots": False, "klist": True}]),
        {"pos": ["L.t1", "D.t2", "S.t3"], "kw": []},
        [{"set": {"name": "x", "v": "@same"}}, {"aug": {"name": "x", "v": "+a"}}, {"aug": {"name": "y", "v": "+a"}}, {"aug": {"name": "z", "v": "+a"}},
         {"aug": {"name": "x", "v": ""}}, {"set": {"name": "y", "v": "@equal"}}, {"set": {"name": "z", "v": "@same"}}, {"set": {"name": "klist", "v": "@same"}},
         {"del": {"name": "klist"}}, "copy", "deepcopy", {"pickle": {"proto": 2}}, {"evolve": {"changes": [["y", "n1"]]}}], "valid"),
    "mutable-values-inplace-slotted-define-via-ancestor": (
        H([C("C0", api="frozen", frozen=None, fields=[F("x")]), C("C1", api="define", frozen=False, fields=[F("y", default="value"), F("w", kw_only=True)])]),
        {"pos": ["L.t1"], "kw": [["w", "D.t2"]]},
        [{"aug": {"name": "x", "v": "+a"}}, {"aug": {"name": "w", "v": "+a"}}, {"set": {"name": "w", "v": "@same"}}, {"set": {"name": "x", "v": "@equal"}},
         {"aug": {"name": "y", "v": ""}}, "copy"], "valid"),
    "dict-below-plain-below-slots-make-class": (
        H([C("C0", frozen=True, slots=True, collect_by_mro=True, fields=[F("x")]), P("P1"),
           C("C2", api="make_class", frozen=False, slots=False, collect_by_mro=True, fields=[F("y")])], tail=[{"name": "T0", "plain_slots": False}]),
        {"pos": ["t1", "t2"], "kw": []}, ALLCOPY + [{"aug": {"name": "y", "v": "+a"}}], "valid"),
    # a body __setattr__ without auto_detect below a hooked base and a frozen base is kept (K8 repair, d7e0df9)
    "body-setattr-no-autodetect-below-hooked-and-frozen": (
        H([C("C0", cls_on_setattr="hook", slots=False, fields=[F("x", default="value")]), C("C1", frozen=True, slots=False),
           dict(C("C2", frozen=False, slots=False), user_set=True)]),
        {"pos": [], "kw": []}, [{"del": {"name": "x"}}], "k05a"),
    "body-setattr-frozen-arg-overrides": (
        H([dict(C("C0", frozen=True, slots=False, fields=[F("x")]), user_set=True, user_del=True)]),
        {"pos": ["t1"], "kw": []}, [{"set": {"name": "x", "v": "s1"}}, {"del": {"name": "x"}}, "copy"], "valid"),
}
# exception bases outside the Exception subtree (and a slotted / attr.s(auto_exc) / plain-subclass spread over them)
for _i, _r in enumerate(["BaseException", "KeyboardInterrupt", "SystemExit", "GeneratorExit", "CancelledError", "Quit"]):
    _c = [C("C0", api="frozen", frozen=None, fields=[F("x")]), C("C0", frozen=True, slots=True, auto_exc=True, fields=[F("x")]),
          C("C0", api="make_class", frozen=True, slots=False, fields=[F("x")])][_i % 3]
    CORP[f"frozen-exception-bookkeeping-{_r}"] = (
        H([_c], tail=[{"name": "T0", "plain_slots": False}] if _i % 2 else (), exc=True, exc_root=_r),
        {"pos": ["t1"], "kw": []}, ["raise_", {"set": {"name": "__traceback__", "v": "None"}}, "raiseFrom", "chain", {"addNote": {"v": "n1"}},
                                     {"set": {"name": "__cause__", "v": "E1"}}, {"set": {"name": "__context__", "v": "E2"}},
                                     {"del": {"name": "__notes__"}}, {"set": {"name": "x", "v": "s1"}}, {"withTb": {"present": True}},
                                     {"set": {"name": "__suppress_context__", "v": "True"}}], "valid")


def evaluate(h, ctor, ops, stream):
    case = prop.make_case(h, ctor, ops, stream)
    obs = prop.observe(case)
    r = leantools.drive([leantools.request("C05", case, obs)])[0]
    return case, obs, r


def main():
    out = []
    for k, (h, ctor, ops, stream) in W.items():
        case, obs, r = evaluate(h, ctor, ops, stream)
        print(k, {x: r.get(x) for x in ("wf", "agree", "specObs", "known", "error")})
        assert r["wf"] and not r["specObs"] and k in r["known"] and r["agree"], r
        out.append({"id": k, "property": "C05", "lean_predicate": PRED[k], "what": WHAT[k], "witness": case})
    Path("known_findings.d").mkdir(exist_ok=True)
    Path("known_findings.d/C05.json").write_text(json.dumps(out, indent=1))
    d = Path("corpus/C05")
    d.mkdir(parents=True, exist_ok=True)
    for f in d.glob("*.json"):
        f.unlink()
    for name, (h, ctor, ops, stream) in CORP.items():
        case, obs, r = evaluate(h, ctor, ops, stream)
        print(name, {x: r.get(x) for x in ("wf", "agree", "specObs", "known", "error")}, obs.get("defErr"), obs.get("rset"), obs.get("rdel"),
              [s["exc"] for s in obs["steps"]])
        if stream == "k05a":
            assert r["wf"] and r["agree"] and "K05a" in r["known"], (name, r, obs)
        else:
            assert r["wf"] and r["specObs"] and r["agree"] and not r["known"], (name, r, obs)
        (d / f"{name}.json").write_text(json.dumps({"case": case, "why": name}, indent=1))


if __name__ == "__main__":
    main()
