"""Confirm a seeded change and run a check against it.

usage: seed_eval.py <Cxx> <dir with patch.diff, demo.py[, notes.md]> <scratch worktree of /repo> <seeded id> [--tier quick] [--no-suite]

Steps (all in the scratch worktree, never in /repo): demo passes on the clean tree; patch applies; demo fails
with it; the pinned suite still passes (baseline stable_pass list); `ATTRS_REPO=<worktree> ./check Cxx`
is run and its verdict recorded; the worktree is restored.  Writes /verif/seeded/<id>/{patch.diff, demo.py,
notes.md, meta.json}.
"""
from __future__ import annotations

import json
import os
import re
import shutil
import subprocess
import sys
import time
from pathlib import Path

VERIF = Path(__file__).resolve().parent.parent


def sh(cmd, cwd=None, env=None, timeout=3600):
    p = subprocess.run(cmd, cwd=cwd, env=env, capture_output=True, text=True, timeout=timeout)
    out = "\n".join(l for l in (p.stdout + p.stderr).splitlines() if "conda.cli.condarc" not in l)
    return p.returncode, out


def suite(wt):
    base = json.load(open("/root/.vp/BASELINE.json"))
    import tempfile
    import xml.etree.ElementTree as ET
    xml = tempfile.mktemp(suffix=".xml")
    env = dict(os.environ, PYTHONPATH=str(Path(wt) / "src"), PYTHONDONTWRITEBYTECODE="1")
    sh(["/venv/bin/python", "-m", "pytest", "-ra", "-q", "-p", "no:cacheprovider", "--timeout=900",
        "--continue-on-collection-errors", f"--junitxml={xml}"], cwd=wt, env=env)
    passed = set()
    for tc in ET.parse(xml).getroot().iter("testcase"):
        if not any(ch.tag in ("failure", "error", "skipped") for ch in tc):
            passed.add(f"{tc.get('classname')}::{tc.get('name')}")
    os.unlink(xml)
    return [t for t in base["stable_pass"] if t not in passed]


def main():
    args = [a for a in sys.argv[1:] if not a.startswith("--")]
    pid, src, wt, sid = args[0], Path(args[1]).resolve(), Path(args[2]).resolve(), args[3]
    tier = "thorough" if "--thorough" in sys.argv else "quick"
    env_wt = dict(os.environ, PYTHONPATH=str(wt / "src"), PYTHONDONTWRITEBYTECODE="1")
    meta = {"id": sid, "property": pid, "ran_at": time.strftime("%Y-%m-%d %H:%M:%S"), "steps": {}}
    rc, out = sh(["git", "-C", str(wt), "status", "--porcelain"])
    if out.strip():
        print("scratch worktree is not clean:", out)
        return 2
    sh(["git", "-C", str(wt), "checkout", "-q", "--detach", "main"])     # the scratch worktree follows /repo's HEAD
    _, head = sh(["git", "-C", str(wt), "rev-parse", "--short", "HEAD"])
    meta["repo_commit"] = head.strip()
    rc0, out0 = sh(["/venv/bin/python", str(src / "demo.py")], cwd=wt, env=env_wt, timeout=600)
    meta["steps"]["demo_on_clean_tree"] = {"rc": rc0, "tail": out0[-400:]}
    rc, out = sh(["git", "-C", str(wt), "apply", str(src / "patch.diff")])
    if rc != 0:
        # the source moved on (fix: commits) since the patch was made: try a three-way application
        rc, out = sh(["git", "-C", str(wt), "apply", "--3way", str(src / "patch.diff")])
        _, st = sh(["git", "-C", str(wt), "diff", "--name-only", "--diff-filter=U"])
        if rc != 0 or st.strip():
            sh(["git", "-C", str(wt), "reset", "-q", "--hard"])
            print("patch does not apply to the current tree (needs porting):", out[-300:])
            return 2
        sh(["git", "-C", str(wt), "reset", "-q"])      # keep the changes in the working tree only
        _, ported = sh(["git", "-C", str(wt), "diff"])
        (src / "patch.orig.diff").write_text((src / "patch.diff").read_text())
        (src / "patch.diff").write_text(ported + "\n")
        meta["ported_by_3way"] = True
    try:
        rc1, out1 = sh(["/venv/bin/python", str(src / "demo.py")], cwd=wt, env=env_wt, timeout=600)
        meta["steps"]["demo_with_change"] = {"rc": rc1, "tail": out1[-600:]}
        pre = src / "suite.json"          # written by harness/seed_suite_pre.py (same patch, same HEAD), if it ran
        if pre.exists() and json.loads(pre.read_text()).get("repo_commit") == meta["repo_commit"]:
            meta["steps"]["suite_with_change"] = json.loads(pre.read_text())["suite_with_change"]
        elif "--no-suite" in sys.argv:
            # re-evaluation: keep the suite result of the first evaluation of this change (same patch)
            try:
                prev = json.loads((VERIF / "seeded" / sid / "meta.json").read_text())
                if "suite_with_change" in prev["steps"]:
                    meta["steps"]["suite_with_change"] = dict(prev["steps"]["suite_with_change"],
                                                              carried_over_from=prev.get("repo_commit"))
            except Exception:  # noqa: BLE001
                pass
        else:
            missing = suite(wt)
            meta["steps"]["suite_with_change"] = {"baseline_tests_not_passing": len(missing), "first": missing[:5]}
        env = dict(os.environ, ATTRS_REPO=str(wt))
        # the check rewrites evidence/<id>.json and Generated/Tables.lean from the CHANGED tree: keep the
        # committed versions (evidence must come from runs against /repo itself)
        keep = {f: (f.read_bytes() if f.exists() else None)
                for f in (VERIF / "evidence" / f"{pid}.json", VERIF / "lean" / "AttrsModel" / "AttrsModel" / "Generated" / "Tables.lean")}
        t0 = time.time()
        rcc, outc = sh([str(VERIF / "check"), pid, "--tier", tier], cwd=VERIF, env=env, timeout=3000)
        lines = [l for l in outc.splitlines() if l.startswith(("VIOLATION", "[" + pid, "TOOL-FAILURE"))]
        meta["steps"]["check"] = {"cmd": f"ATTRS_REPO={wt} ./check {pid} --tier {tier}", "rc": rcc,
                                  "wall_s": round(time.time() - t0, 1), "lines": lines[:6]}
        m = re.search(r"VIOLATION property=\S+ replay=(\S+)", outc)
        if m:
            rp = VERIF / m.group(1)
            try:
                doc = json.loads(rp.read_text())
                meta["steps"]["check"]["replay_kind"] = doc.get("kind")
                meta["steps"]["check"]["replay_case"] = json.dumps(doc.get("case"))[:1500]
            except Exception:  # noqa: BLE001
                pass
            rcr, outr = sh([str(VERIF / "check"), "replay", m.group(1)], cwd=VERIF, env=env, timeout=600)
            meta["steps"]["replay_with_change"] = {"rc": rcr, "verdict": [l for l in outr.splitlines() if l.startswith("verdict")]}
    finally:
        for f, b in (keep if "keep" in dir() else {}).items():
            if b is not None:
                f.write_bytes(b)
        sh(["git", "-C", str(wt), "reset", "-q", "--hard"])
        sh(["git", "-C", str(wt), "clean", "-fdq"])
    meta["confirmed"] = (rc0 == 0 and meta["steps"]["demo_with_change"]["rc"] != 0
                         and meta["steps"].get("suite_with_change", {}).get("baseline_tests_not_passing", 0) == 0)
    meta["detected"] = meta["steps"]["check"]["rc"] == 1
    d = VERIF / "seeded" / sid
    d.mkdir(parents=True, exist_ok=True)
    for f in ("patch.diff", "demo.py", "notes.md"):
        if (src / f).exists():
            shutil.copy(src / f, d / f)
    notes = (src / "notes.md").read_text() if (src / "notes.md").exists() else ""
    meta["needs_to_manifest"] = notes[:1500]
    (d / "meta.json").write_text(json.dumps(meta, indent=1))
    print(json.dumps({k: meta[k] for k in ("id", "confirmed", "detected")}), meta["steps"]["check"]["lines"][-1:] )
    return 0


if __name__ == "__main__":
    sys.exit(main())
