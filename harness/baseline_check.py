"""Run /repo's pinned suite and compare with /root/.vp/BASELINE.json's stable_pass list."""
import json
import subprocess
import sys
import xml.etree.ElementTree as ET
from pathlib import Path

work = Path(__file__).resolve().parent.parent / ".work"
work.mkdir(exist_ok=True)
xml = work / "baseline.junit.xml"
base = json.load(open("/root/.vp/BASELINE.json"))
cmd = base["cmd"].replace("<file>", str(xml))
subprocess.run(cmd, shell=True, capture_output=True)
passed = set()
for tc in ET.parse(xml).getroot().iter("testcase"):
    if not any(ch.tag in ("failure", "error", "skipped") for ch in tc):
        passed.add(f"{tc.get('classname')}::{tc.get('name')}")
missing = [t for t in base["stable_pass"] if t not in passed]
print(f"stable_pass={len(base['stable_pass'])} passed_now={len(passed)} missing={len(missing)}")
for m in missing[:30]:
    print("  NOT PASSING:", m)
sys.exit(1 if missing else 0)
