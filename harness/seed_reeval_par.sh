#!/bin/sh
# Re-evaluate every stored seeded change against /repo's CURRENT HEAD on N parallel lanes (harness/lanes.sh: each lane
# is a private copy of /verif with its own Lean build, and its own scratch worktree of /repo).
# usage: harness/seed_reeval_par.sh [N=8] [id-prefix filter, e.g. C03]
N=${1:-8}; F=${2:-C}
cd /verif
OUT=/verif/.work/reeval_par; rm -rf $OUT; mkdir -p $OUT
: > $OUT/jobs.txt
k=0
while [ $k -lt $N ]; do
  git -C /repo worktree remove --force /tmp/seed/lane_$k 2>/dev/null
  git -C /repo worktree add -q --detach /tmp/seed/lane_$k HEAD
  k=$((k+1))
done
i=0
for id in $(ls seeded | grep -v SUMMARY | grep "^$F"); do
  p=$(echo $id | cut -d- -f1); k=$((i % N)); i=$((i+1))
  echo "key=lane$k rm -rf .work/src && mkdir -p .work/src && cp seeded/$id/patch.diff seeded/$id/demo.py .work/src/ && (cp seeded/$id/notes.md .work/src/ 2>/dev/null; true) && /venv/bin/python harness/seed_eval.py $p .work/src /tmp/seed/lane_$k $id --no-suite 2>&1 | grep -v WARN | cut -c1-200" >> $OUT/jobs.txt
done
harness/lanes.sh $N $OUT/jobs.txt $OUT
k=0
while [ $k -lt $N ]; do git -C /repo worktree remove --force /tmp/seed/lane_$k; k=$((k+1)); done
cat $OUT/lane*.log | grep -c '"detected": true'
cat $OUT/lane*.log | grep -v '"detected": true' | grep -v "^$" | head -40
/venv/bin/python harness/seeded_summary.py | grep -v WARN
